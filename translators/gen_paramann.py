#!/usr/bin/env python3
"""Gen/ParamAnn.lean: what the C01 model needs from /repo's current tree.

 * giscanner/annotationparser.py (import + Python `ast` walk of the `_do_validate_*` methods):
   ALL_ANNOTATIONS, the annotations accepted on a parameter part / on a tag part, the arity
   and choice arguments every `_do_validate_<ann>` passes to `_validate_annotation`, the
   option vocabularies (array / out / not / scope / transfer).
 * giscanner/ast.py (import): BASIC_TYPES, BASIC_GIR_TYPES, POINTER_TYPES as fundamental
   names, the fundamentals of TYPE_ANY/NONE/STRING/FILENAME/UINT8/INT8/CHAR, the
   direction / transfer / scope constants, Array.C and the GLib array kinds.
 * giscanner/maintransformer.py and giscanner/girwriter.py (Python `ast` walk): every string
   literal that occurs in a comparison, an `in (...)` test, an `.endswith()/.get()` argument or
   an attribute tuple inside the functions the model mirrors.  A `decide` theorem in
   Props/C01.lean compares these lists with the ones the model was written for, so a
   changed literal (renamed attribute, different well-known type name) breaks a proof
   obligation instead of going unnoticed.
"""
import ast as pyast
import os

from common import write_if_changed, lean_list, lean_str, install_stub_lexer, REPO


def lstrs(xs):
    return lean_list([lean_str(x) for x in xs])


def opt_nat(v):
    return 'none' if v is None else '(some %d)' % v


def opt_strs(v):
    return 'none' if v is None else '(some %s)' % lstrs(v)


def validate_table(ap):
    """(annotation, kind, exact, min, max, choices) for every _do_validate_<ann>."""
    path = os.path.join(REPO, 'giscanner', 'annotationparser.py')
    with open(path, encoding='utf-8') as f:
        tree = pyast.parse(f.read())
    rows = {}
    for cls in tree.body:
        if isinstance(cls, pyast.ClassDef) and cls.name == 'GtkDocAnnotatable':
            for fn in cls.body:
                if isinstance(fn, pyast.FunctionDef) and fn.name.startswith('_do_validate_'):
                    ann = fn.name[len('_do_validate_'):]
                    calls = [n for n in pyast.walk(fn) if isinstance(n, pyast.Call)
                             and isinstance(n.func, pyast.Attribute) and n.func.attr == '_validate_annotation']
                    if len(calls) == 1:
                        kw = {k.arg: k.value for k in calls[0].keywords}
                        vals = {}
                        for key in ('exact_n_options', 'min_n_options', 'max_n_options'):
                            v = kw.get(key)
                            vals[key] = v.value if isinstance(v, pyast.Constant) else None
                        ch = kw.get('choices')
                        choices = list(getattr(ap, ch.id)) if isinstance(ch, pyast.Name) else None
                        rows[ann] = ('generic', vals['exact_n_options'], vals['min_n_options'],
                                     vals['max_n_options'], choices)
                    elif len(calls) == 0:
                        has_loop = any(isinstance(n, pyast.For) for n in pyast.walk(fn))
                        rows[ann] = ('array' if has_loop else 'free', None, None, None, None)
                    else:
                        raise SystemExit('gen_paramann: %s calls _validate_annotation %d times' % (fn.name, len(calls)))
    return rows


def literals_in(path, clsname, funcs):
    """string literals used in comparisons / membership tests / endswith / tuple heads, and the named
    constant tables of membership tests (`in:NAME`), class tests (`isa:Class`) and `x.attr is (not) None` guards
    (`none:attr`), per function"""
    with open(path, encoding='utf-8') as f:
        tree = pyast.parse(f.read())
    out = []
    for cls in tree.body:
        if isinstance(cls, pyast.ClassDef) and cls.name == clsname:
            for fn in cls.body:
                if isinstance(fn, pyast.FunctionDef) and fn.name in funcs:
                    found = []
                    for n in pyast.walk(fn):
                        if isinstance(n, pyast.Call) and isinstance(n.func, pyast.Name) and n.func.id == 'isinstance' \
                                and len(n.args) == 2:
                            # class tests (`isinstance(node, ast.Return)`): guards of the mirrored control flow
                            cls_arg = n.args[1]
                            for c in (cls_arg.elts if isinstance(cls_arg, pyast.Tuple) else [cls_arg]):
                                if isinstance(c, pyast.Attribute):
                                    found.append('isa:' + c.attr)
                        if isinstance(n, pyast.Compare) and len(n.ops) == 1 and isinstance(n.ops[0], (pyast.Is, pyast.IsNot)) \
                                and isinstance(n.comparators[0], pyast.Constant) and n.comparators[0].value is None \
                                and isinstance(n.left, pyast.Attribute):
                            # `x.attr is None` / `is not None` guards
                            found.append('none:' + n.left.attr)
                        if isinstance(n, pyast.Compare):
                            # membership tests against a named constant table (`x not in TRANSFER_OPTIONS`,
                            # `t not in ast.BASIC_TYPES`): the guard itself is part of the pinned shape
                            if len(n.ops) == 1 and isinstance(n.ops[0], (pyast.In, pyast.NotIn)) \
                                    and isinstance(n.left, pyast.Name) and n.left.id.upper() == n.left.id:
                                found.append('has:' + n.left.id)     # `OPT_NOT_OPTIONAL in not_annotation`
                            for op, c in zip(n.ops, n.comparators):
                                if isinstance(op, (pyast.In, pyast.NotIn)):
                                    nm = c.id if isinstance(c, pyast.Name) else (
                                        c.attr if isinstance(c, pyast.Attribute) else '')
                                    if nm and nm.upper() == nm:
                                        found.append('in:' + nm)
                            for c in [n.left] + list(n.comparators):
                                for s in pyast.walk(c):
                                    if isinstance(s, pyast.Constant) and isinstance(s.value, str):
                                        found.append(s.value)
                        elif isinstance(n, pyast.Call) and isinstance(n.func, pyast.Attribute) \
                                and n.func.attr in ('endswith', 'get', 'startswith'):
                            for a in n.args:
                                if isinstance(a, pyast.Constant) and isinstance(a.value, str):
                                    found.append(a.value)
                        elif isinstance(n, pyast.Tuple) and n.elts and isinstance(n.elts[0], pyast.Constant) \
                                and isinstance(n.elts[0].value, str) and len(n.elts) == 2:
                            found.append('attr:' + n.elts[0].value)
                    out.append((fn.name, sorted(set(found))))
    names = [n for n, _ in out]
    for fn in funcs:
        if fn not in names:
            raise SystemExit('gen_paramann: %s.%s not found' % (clsname, fn))
    return sorted(out)


def main():
    install_stub_lexer()
    from giscanner import annotationparser as ap
    from giscanner import ast

    vt = validate_table(ap)

    def rows_for(valid):
        rows = []
        for ann in valid:
            kind, ex, mn, mx, ch = vt[ann.replace('-', '_')]
            rows.append('(%s, %s, %s, %s, %s, %s)' % (lean_str(ann), lean_str(kind), opt_nat(ex), opt_nat(mn),
                                                      opt_nat(mx), opt_strs(ch)))
        return lean_list(rows)

    def fund(ts):
        return lstrs([t.target_fundamental for t in ts])

    mt = literals_in(os.path.join(REPO, 'giscanner', 'maintransformer.py'), 'MainTransformer',
                     ['_apply_transfer_annotation', '_apply_annotations_param_ret_common', '_is_pointer_type',
                      '_apply_annotations_array', '_apply_annotations_element_type',
                      '_apply_annotations_param_callback', '_apply_annotations_param_closure',
                      '_pass3_callable_callbacks', '_pass3_callable_throws', '_pass3_callable_references',
                      '_resolve_toplevel', '_check_instance_parameter',
                      '_get_transfer_default_param', '_check_array_element_type'])
    gw = literals_in(os.path.join(REPO, 'giscanner', 'girwriter.py'), 'GIRWriter',
                     ['_write_parameter', '_write_return_type', '_write_type', '_write_generic'])

    def lit_rows(rows):
        return lean_list(['(%s, %s)' % (lean_str(n), lstrs(v)) for n, v in rows])

    text = '''-- GENERATED by translators/gen_paramann.py from giscanner/annotationparser.py, ast.py,
-- maintransformer.py, girwriter.py. Do not edit.
namespace GIVerif.Gen.ParamAnn

/-- `annotationparser.ALL_ANNOTATIONS` -/
def allAnnotations : List String := %s

/-- `GtkDocParameter.valid_annotations` with the arguments its `_do_validate_<ann>` passes to
    `_validate_annotation`: (annotation, kind generic|array|free, exact, min, max, choices) -/
def paramValidate : List (String × String × Option Nat × Option Nat × Option Nat × Option (List String)) := %s

/-- `GtkDocTag.valid_annotations`, same columns -/
def tagValidate : List (String × String × Option Nat × Option Nat × Option Nat × Option (List String)) := %s

def arrayOptions : List String := %s
def optArrayFixedSize : String := %s
def optArrayLength : String := %s
def optArrayZeroTerminated : String := %s
def outOptions : List String := %s
def optOutCallerAllocates : String := %s
def optOutCalleeAllocates : String := %s
def notOptions : List String := %s
def optNotNullable : String := %s
def optNotOptional : String := %s
def scopeOptions : List String := %s
def transferOptions : List String := %s
def optTransferFloating : String := %s
def optTransferContainer : String := %s
def optTransferNone : String := %s
def optTransferFull : String := %s

/-- `ast.BASIC_TYPES`, `ast.BASIC_GIR_TYPES`, `ast.POINTER_TYPES` (fundamental names) -/
def basicTypes : List String := %s
def basicGirTypes : List String := %s
def pointerTypes : List String := %s
def typeAny : String := %s
def typeNone : String := %s
def typeString : String := %s
def typeFilename : String := %s
def byteArrayElems : List String := %s

def dirIn : String := %s
def dirOut : String := %s
def dirInout : String := %s
def transferNone : String := %s
def transferFull : String := %s
def transferContainer : String := %s
def scopeNotified : String := %s
def scopeAsync : String := %s
def arrayC : String := %s
def arrayPtrArray : String := %s
def arrayByteArray : String := %s

/-- string literals in comparisons / membership tests / endswith / get / attribute tuples inside
    the mirrored MainTransformer functions (sorted, per function) -/
def transformerLiterals : List (String × List String) := %s

/-- the same for the mirrored GIRWriter functions (`attr:x` = head of a written `('x', value)` tuple) -/
def writerLiterals : List (String × List String) := %s

end GIVerif.Gen.ParamAnn
''' % (lstrs(ap.ALL_ANNOTATIONS),
       rows_for(ap.GtkDocParameter.valid_annotations),
       rows_for(ap.GtkDocTag.valid_annotations),
       lstrs(ap.ARRAY_OPTIONS), lean_str(ap.OPT_ARRAY_FIXED_SIZE), lean_str(ap.OPT_ARRAY_LENGTH),
       lean_str(ap.OPT_ARRAY_ZERO_TERMINATED),
       lstrs(ap.OUT_OPTIONS), lean_str(ap.OPT_OUT_CALLER_ALLOCATES), lean_str(ap.OPT_OUT_CALLEE_ALLOCATES),
       lstrs(ap.NOT_OPTIONS), lean_str(ap.OPT_NOT_NULLABLE), lean_str(ap.OPT_NOT_OPTIONAL),
       lstrs(ap.SCOPE_OPTIONS), lstrs(ap.TRANSFER_OPTIONS), lean_str(ap.OPT_TRANSFER_FLOATING),
       lean_str(ap.OPT_TRANSFER_CONTAINER), lean_str(ap.OPT_TRANSFER_NONE), lean_str(ap.OPT_TRANSFER_FULL),
       fund(ast.BASIC_TYPES), fund(ast.BASIC_GIR_TYPES), fund(ast.POINTER_TYPES),
       lean_str(ast.TYPE_ANY.target_fundamental), lean_str(ast.TYPE_NONE.target_fundamental),
       lean_str(ast.TYPE_STRING.target_fundamental), lean_str(ast.TYPE_FILENAME.target_fundamental),
       fund([ast.TYPE_UINT8, ast.TYPE_INT8, ast.TYPE_CHAR]),
       lean_str(ast.PARAM_DIRECTION_IN), lean_str(ast.PARAM_DIRECTION_OUT), lean_str(ast.PARAM_DIRECTION_INOUT),
       lean_str(ast.PARAM_TRANSFER_NONE), lean_str(ast.PARAM_TRANSFER_FULL), lean_str(ast.PARAM_TRANSFER_CONTAINER),
       lean_str(ast.PARAM_SCOPE_NOTIFIED), lean_str(ast.PARAM_SCOPE_ASYNC),
       lean_str(ast.Array.C), lean_str(ast.Array.GLIB_PTRARRAY), lean_str(ast.Array.GLIB_BYTEARRAY),
       lit_rows(mt), lit_rows(gw))
    path, digest, changed = write_if_changed('ParamAnn.lean', text)
    print('gen_paramann: %s sha256=%s changed=%s param_anns=%d tag_anns=%d' % (
        path, digest[:12], changed, len(ap.GtkDocParameter.valid_annotations), len(ap.GtkDocTag.valid_annotations)))


if __name__ == '__main__':
    main()
