"""Shared helpers for translators: atomic write-if-changed of generated Lean files."""
import hashlib
import os
import sys
import types

VERIF = os.path.dirname(os.path.dirname(os.path.abspath(__file__)))
REPO = os.environ.get('GIVERIF_REPO', '/repo')
GEN_DIR = os.path.join(VERIF, 'lean', 'GIVerif', 'Gen')


def write_if_changed(name, text):
    """Write lean/GIVerif/Gen/<name>; leave the file (and its mtime) alone when the
    content is identical, so `lake build` stays a no-op on an unchanged tree.
    Returns (path, sha256, changed)."""
    path = os.path.join(GEN_DIR, name)
    os.makedirs(GEN_DIR, exist_ok=True)
    digest = hashlib.sha256(text.encode('utf-8')).hexdigest()
    old = None
    if os.path.exists(path):
        with open(path, encoding='utf-8') as f:
            old = f.read()
    changed = old != text
    if changed:
        tmp = path + '.tmp.%d' % os.getpid()
        with open(tmp, 'w', encoding='utf-8') as f:
            f.write(text)
        os.replace(tmp, path)
    return path, digest, changed


def lean_str(s):
    """A Lean string literal for an arbitrary Python str."""
    out = ['"']
    for ch in s:
        o = ord(ch)
        if ch == '"':
            out.append('\\"')
        elif ch == '\\':
            out.append('\\\\')
        elif ch == '\n':
            out.append('\\n')
        elif ch == '\t':
            out.append('\\t')
        elif ch == '\r':
            out.append('\\r')
        elif o < 0x20 or o == 0x7f or o > 0x7e:
            out.append('\\u{%x}' % o)
        else:
            out.append(ch)
    out.append('"')
    return ''.join(out)


def lean_list(items):
    return '[' + ', '.join(items) + ']'


def install_stub_lexer():
    """Make giscanner importable without the compiled C lexer extension."""
    import builtins
    if REPO not in sys.path:
        sys.path.insert(0, REPO)
    if 'giscanner._giscanner' not in sys.modules:
        m = types.ModuleType('giscanner._giscanner')

        class SourceScanner(object):
            def __init__(self, *a, **k):
                pass
        m.SourceScanner = SourceScanner
        sys.modules['giscanner._giscanner'] = m
    builtins.__dict__.setdefault('DATADIR', '/nonexistent/share')
    builtins.__dict__.setdefault('GIR_DIR', '/nonexistent/share/gir-1.0')
    builtins.__dict__.setdefault('GIRDIR', ['/nonexistent/share/gir-1.0'])
    os.environ.setdefault('GI_SCANNER_DISABLE_CACHE', '1')
