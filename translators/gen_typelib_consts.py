#!/usr/bin/env python3
"""Gen/TypelibConsts.lean: the literals of the typelib format that are not struct layouts,
re-read from /repo's current tree on every run (regular C, regex scan):

* the documented blob sizes: the `CHECK_SIZE (Struct, n)` table of g_typelib_check_sanity
  (girepository/gitypelib.c) -- the numbers the format promises;
* what `_g_ir_module_build_typelib` (girmodule.c) stores in each `header->*_blob_size`
  (`sizeof (Struct)` or a literal) and what `validate_header` (gitypelib.c) compares each one with;
* G_IR_MAGIC as bytes, the major version written and the one accepted, ACCESSOR_SENTINEL,
  ASYNC_SENTINEL, NUM_SECTIONS, the boundary used by the ALIGN_VALUE calls in girnode.c/girmodule.c;
* the C type of the variable of girmodule.c that receives `_gi_typelib_hash_builder_get_buffer_size ()`
  (the size of the directory index section) and the return type of that function in gthash.c.

C06's `decide` theorems compare these tables with Gen/TypelibLayout (measured by the C probe)
and with the constants written in the property file."""
import os
import re

from common import write_if_changed, lean_list, lean_str, REPO

GIREPO = os.path.join(REPO, 'girepository')


def read(name):
    with open(os.path.join(GIREPO, name), encoding='utf-8', errors='replace') as f:
        return f.read()


def strip_comments(src):
    return re.sub(r'/\*.*?\*/', lambda m: re.sub(r'[^\n]', ' ', m.group(0)), src, flags=re.S)


def c_string_bytes(lit):
    """bytes of a C string literal body (handles \\n \\r \\t \\\\ \\" \\ooo \\xhh)"""
    out = []
    i = 0
    while i < len(lit):
        ch = lit[i]
        if ch != '\\':
            out.extend(ch.encode('utf-8'))
            i += 1
            continue
        i += 1
        e = lit[i]
        simple = {'n': 10, 'r': 13, 't': 9, '\\': 92, '"': 34, "'": 39, '0': None, 'a': 7, 'b': 8, 'f': 12, 'v': 11}
        if e in '01234567':
            j = i
            while j < len(lit) and j < i + 3 and lit[j] in '01234567':
                j += 1
            out.append(int(lit[i:j], 8))
            i = j
        elif e == 'x':
            j = i + 1
            while j < len(lit) and lit[j] in '0123456789abcdefABCDEF':
                j += 1
            out.append(int(lit[i + 1:j], 16))
            i = j
        elif e in simple:
            out.append(simple[e])
            i += 1
        else:
            raise SystemExit('gen_typelib_consts: unknown escape \\%s in G_IR_MAGIC' % e)
    return out


def main():
    tl = strip_comments(read('gitypelib.c'))
    mod = strip_comments(read('girmodule.c'))
    node = strip_comments(read('girnode.c'))
    hdr = read('gitypelib-internal.h')

    check_sizes = [(m.group(1), int(m.group(2)))
                   for m in re.finditer(r'CHECK_SIZE\s*\(\s*(\w+)\s*,\s*(\d+)\s*\)\s*;', tl)]
    if len(check_sizes) < 20:
        raise SystemExit('gen_typelib_consts: CHECK_SIZE table not found in gitypelib.c')

    assigns = []
    for m in re.finditer(r'header->(\w+_blob_size)\s*=\s*(?:sizeof\s*\(\s*(\w+)\s*\)|(\d+))\s*;', mod):
        assigns.append((m.group(1), m.group(2) or '', int(m.group(3) or 0)))
    if len(assigns) < 15:
        raise SystemExit('gen_typelib_consts: header->*_blob_size assignments not found in girmodule.c')

    vh = re.search(r'\bvalidate_header_basic\b.*?\n\}', tl, re.S)
    body = vh.group(0) if vh else tl
    checks = [(m.group(1), m.group(2))
              for m in re.finditer(r'header->(\w+_blob_size)\s*!=\s*sizeof\s*\(\s*(\w+)\s*\)', body)]
    if len(checks) < 15:
        raise SystemExit('gen_typelib_consts: validate_header blob size comparisons not found in gitypelib.c')

    m = re.search(r'#define\s+G_IR_MAGIC\s+"((?:[^"\\]|\\.)*)"', hdr)
    if not m:
        raise SystemExit('gen_typelib_consts: G_IR_MAGIC not found')
    magic = c_string_bytes(m.group(1))

    def define(src, name):
        mm = re.search(r'#define\s+%s\s+(0x[0-9a-fA-F]+|\d+)' % name, src)
        if not mm:
            raise SystemExit('gen_typelib_consts: #define %s not found' % name)
        return int(mm.group(1), 0)

    accessor = define(hdr, 'ACCESSOR_SENTINEL')
    async_s = define(hdr, 'ASYNC_SENTINEL')
    nsect = define(mod, 'NUM_SECTIONS')
    mm = re.search(r'header->major_version\s*=\s*(\d+)\s*;', mod)
    major_written = int(mm.group(1)) if mm else 0
    mm = re.search(r'header->major_version\s*!=\s*(\d+)', tl)
    major_accepted = int(mm.group(1)) if mm else 0
    # every ALIGN_VALUE (x, b) call site of the writer: the boundary argument
    aligns = sorted(set(int(b) for src in (mod, node)
                        for b in re.findall(r'ALIGN_VALUE\s*\((?:[^()]|\([^()]*\))*,\s*(\d+)\s*\)', src)))
    align_def = sorted(set(re.sub(r'\s+', ' ', d.strip()) for src in (mod, node) for d in
                           re.findall(r'#define\s+ALIGN_VALUE\(this,\s*boundary\)\s*\\\n(.*)', src)))

    # the integer type holding the size of the directory index section: the local variable (anywhere in
    # girmodule.c) assigned from _gi_typelib_hash_builder_get_buffer_size (), and what the builder returns
    uint_bits = {'guint8': 8, 'guint16': 16, 'gushort': 16, 'guint32': 32, 'guint': 32, 'guint64': 64, 'gsize': 64,
                 'gulong': 64, 'size_t': 64, 'unsigned': 32}
    idx_var_type, idx_ret_type = '', ''
    mm = re.search(r'\b(\w+)\s*=\s*_gi_typelib_hash_builder_get_buffer_size\s*\(', mod)
    if mm:
        var = mm.group(1)
        before = mod[:mm.start()]
        decls = re.findall(r'\b(\w+)\s+(?:\w+\s*,\s*)*%s\s*(?:=[^;,]*)?[;,]' % re.escape(var), before)
        if decls:
            idx_var_type = decls[-1]
    try:
        gth = strip_comments(read('gthash.c'))
        mm = re.search(r'\b(\w+)\s+_gi_typelib_hash_builder_get_buffer_size\s*\(', gth)
        if mm:
            idx_ret_type = mm.group(1)
    except OSError:
        pass
    idx_bits = uint_bits.get(idx_var_type, 0)        # 0: not found / not an unsigned integer type we know

    text = '''-- GENERATED by translators/gen_typelib_consts.py from girepository/gitypelib.c, girmodule.c,
-- girnode.c and gitypelib-internal.h. Do not edit.
namespace GIVerif.Gen

/-- `CHECK_SIZE (Struct, n)` of g_typelib_check_sanity: the documented blob sizes -/
def typelibCheckSizes : List (String × Nat) := %s

/-- what girmodule.c stores in each `header->*_blob_size`: (member, Struct, 0) for `sizeof (Struct)`,
    (member, "", n) for the literal n -/
def headerBlobSizeWritten : List (String × String × Nat) := %s

/-- what validate_header (gitypelib.c) compares each `header->*_blob_size` with (`sizeof (Struct)`) -/
def headerBlobSizeChecked : List (String × String) := %s

/-- G_IR_MAGIC as bytes -/
def irMagic : List Nat := %s

def accessorSentinel : Nat := %d
def asyncSentinel : Nat := %d
def numSections : Nat := %d
def majorVersionWritten : Nat := %d
def majorVersionAccepted : Nat := %d

/-- the boundary arguments of all ALIGN_VALUE call sites of the writer, and the macro body -/
def alignBoundaries : List Nat := %s
def alignMacro : List String := %s

/-- the directory index section: C type (and its width in bits, 0 = unknown) of the variable of
    girmodule.c that receives `_gi_typelib_hash_builder_get_buffer_size ()`, and the return type
    of that function (gthash.c) -/
def dirIndexSizeType : String := %s
def dirIndexSizeBits : Nat := %d
def dirIndexBuilderSizeType : String := %s

end GIVerif.Gen
''' % (lean_list(['(%s, %d)' % (lean_str(a), b) for a, b in check_sizes]),
       lean_list(['(%s, %s, %d)' % (lean_str(a), lean_str(b), c) for a, b, c in assigns]),
       lean_list(['(%s, %s)' % (lean_str(a), lean_str(b)) for a, b in checks]),
       lean_list([str(b) for b in magic]), accessor, async_s, nsect, major_written, major_accepted,
       lean_list([str(b) for b in aligns]), lean_list([lean_str(d) for d in align_def]),
       lean_str(idx_var_type), idx_bits, lean_str(idx_ret_type))
    path, digest, changed = write_if_changed('TypelibConsts.lean', text)
    print('gen_typelib_consts: %s sha256=%s changed=%s check_sizes=%d written=%d checked=%d magic=%d'
          % (path, digest[:12], changed, len(check_sizes), len(assigns), len(checks), len(magic)))


if __name__ == '__main__':
    main()
