/* tools/compiler.c defines this global; girparser.c refers to it.  Programs other than
   g-ir-compiler that link the whole object set get this definition instead. */
#include <glib.h>
GLogLevelFlags logged_levels;
