#include <glib.h>
