#include <glib.h>
FILE *g_fopen (const gchar *filename, const gchar *mode); int g_unlink (const gchar *filename); int g_rename (const gchar *o, const gchar *n);
