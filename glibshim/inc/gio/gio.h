#include <glib-object.h>
typedef struct _GFile GFile; typedef struct _GCancellable GCancellable; typedef struct _GOutputStream GOutputStream; typedef struct _GFileOutputStream GFileOutputStream;
typedef enum { G_FILE_COPY_NONE = 0, G_FILE_COPY_OVERWRITE = 1 } GFileCopyFlags;
typedef void (*GFileProgressCallback) (goffset a, goffset b, gpointer d);
GFile *g_file_new_for_path (const char *path);
gboolean g_file_move (GFile *source, GFile *destination, GFileCopyFlags flags, GCancellable *cancellable, GFileProgressCallback progress_callback, gpointer progress_callback_data, GError **error);
