#ifndef __G_SHIM_GMODULE_H__
#define __G_SHIM_GMODULE_H__
#include <glib.h>
typedef enum { G_MODULE_BIND_LAZY = 1 << 0, G_MODULE_BIND_LOCAL = 1 << 1, G_MODULE_BIND_MASK = 0x03 } GModuleFlags;
typedef struct _GModule GModule;
GModule* g_module_open (const gchar *file_name, GModuleFlags flags); gboolean g_module_close (GModule *module);
const gchar * g_module_error (void); gboolean g_module_symbol (GModule *module, const gchar *symbol_name, gpointer *symbol);
#endif
