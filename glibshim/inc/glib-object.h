#ifndef __G_SHIM_GOBJECT_H__
#define __G_SHIM_GOBJECT_H__
#include <glib.h>
#define G_TYPE_FUNDAMENTAL_SHIFT (2)
#define G_TYPE_MAKE_FUNDAMENTAL(x) ((GType) ((x) << G_TYPE_FUNDAMENTAL_SHIFT))
#define G_TYPE_INVALID G_TYPE_MAKE_FUNDAMENTAL (0)
#define G_TYPE_NONE G_TYPE_MAKE_FUNDAMENTAL (1)
#define G_TYPE_INTERFACE G_TYPE_MAKE_FUNDAMENTAL (2)
#define G_TYPE_CHAR G_TYPE_MAKE_FUNDAMENTAL (3)
#define G_TYPE_UCHAR G_TYPE_MAKE_FUNDAMENTAL (4)
#define G_TYPE_BOOLEAN G_TYPE_MAKE_FUNDAMENTAL (5)
#define G_TYPE_INT G_TYPE_MAKE_FUNDAMENTAL (6)
#define G_TYPE_UINT G_TYPE_MAKE_FUNDAMENTAL (7)
#define G_TYPE_LONG G_TYPE_MAKE_FUNDAMENTAL (8)
#define G_TYPE_ULONG G_TYPE_MAKE_FUNDAMENTAL (9)
#define G_TYPE_INT64 G_TYPE_MAKE_FUNDAMENTAL (10)
#define G_TYPE_UINT64 G_TYPE_MAKE_FUNDAMENTAL (11)
#define G_TYPE_ENUM G_TYPE_MAKE_FUNDAMENTAL (12)
#define G_TYPE_FLAGS G_TYPE_MAKE_FUNDAMENTAL (13)
#define G_TYPE_FLOAT G_TYPE_MAKE_FUNDAMENTAL (14)
#define G_TYPE_DOUBLE G_TYPE_MAKE_FUNDAMENTAL (15)
#define G_TYPE_STRING G_TYPE_MAKE_FUNDAMENTAL (16)
#define G_TYPE_POINTER G_TYPE_MAKE_FUNDAMENTAL (17)
#define G_TYPE_BOXED G_TYPE_MAKE_FUNDAMENTAL (18)
#define G_TYPE_PARAM G_TYPE_MAKE_FUNDAMENTAL (19)
#define G_TYPE_OBJECT G_TYPE_MAKE_FUNDAMENTAL (20)
#define G_TYPE_VARIANT G_TYPE_MAKE_FUNDAMENTAL (21)
typedef struct _GTypeClass { GType g_type; } GTypeClass;
typedef struct _GTypeInstance { GTypeClass *g_class; } GTypeInstance;
typedef struct _GTypeInterface { GType g_type; GType g_instance_type; } GTypeInterface;
typedef struct _GData GData;
typedef struct _GObject { GTypeInstance g_type_instance; guint ref_count; GData *qdata; } GObject;
typedef struct _GValue { GType g_type; union { gint v_int; guint v_uint; glong v_long; gulong v_ulong; gint64 v_int64; guint64 v_uint64; gfloat v_float; gdouble v_double; gpointer v_pointer; } data[2]; } GValue;
typedef struct _GParamSpec GParamSpec; typedef struct _GClosure GClosure;
typedef struct _GObjectConstructParam GObjectConstructParam;
typedef struct _GObjectClass GObjectClass;
struct _GObjectClass {
  GTypeClass g_type_class; GSList *construct_properties;
  GObject* (*constructor) (GType type, guint n_construct_properties, GObjectConstructParam *construct_properties);
  void (*set_property) (GObject *object, guint property_id, const GValue *value, GParamSpec *pspec);
  void (*get_property) (GObject *object, guint property_id, GValue *value, GParamSpec *pspec);
  void (*dispose) (GObject *object); void (*finalize) (GObject *object);
  void (*dispatch_properties_changed) (GObject *object, guint n_pspecs, GParamSpec **pspecs);
  void (*notify) (GObject *object, GParamSpec *pspec); void (*constructed) (GObject *object);
  gsize flags; gsize n_construct_properties; gpointer pspecs; gsize n_pspecs; gpointer pdummy[3];
};
typedef enum { G_PARAM_READABLE = 1 << 0, G_PARAM_WRITABLE = 1 << 1, G_PARAM_READWRITE = 3, G_PARAM_CONSTRUCT = 1 << 2, G_PARAM_CONSTRUCT_ONLY = 1 << 3 } GParamFlags;
typedef enum { G_SIGNAL_RUN_FIRST = 1 << 0, G_SIGNAL_RUN_LAST = 1 << 1, G_SIGNAL_RUN_CLEANUP = 1 << 2, G_SIGNAL_NO_RECURSE = 1 << 3, G_SIGNAL_DETAILED = 1 << 4, G_SIGNAL_ACTION = 1 << 5, G_SIGNAL_NO_HOOKS = 1 << 6 } GSignalFlags;
typedef void (*GClassInitFunc) (gpointer g_class, gpointer class_data);
typedef void (*GInstanceInitFunc) (GTypeInstance *instance, gpointer g_class);
typedef gpointer (*GBoxedCopyFunc) (gpointer boxed); typedef void (*GBoxedFreeFunc) (gpointer boxed);
const gchar *g_type_name (GType type); GType g_type_from_name (const gchar *name); GType g_type_fundamental (GType type_id); GType g_type_parent (GType type);
GType *g_type_interfaces (GType type, guint *n_interfaces); gpointer g_type_class_ref (GType type); void g_type_class_unref (gpointer g_class);
gpointer g_type_class_peek_parent (gpointer g_class); gpointer g_type_interface_peek (gpointer instance_class, GType iface_type);
GType g_type_register_static_simple (GType parent_type, const gchar *type_name, guint class_size, GClassInitFunc class_init, guint instance_size, GInstanceInitFunc instance_init, guint flags);
gint g_type_add_instance_private (GType class_type, gsize private_size); void g_type_class_adjust_private_offset (gpointer g_class, gint *private_size_or_offset);
GTypeInstance *g_type_check_instance_cast (GTypeInstance *instance, GType iface_type); gboolean g_type_check_instance_is_a (GTypeInstance *instance, GType iface_type);
GTypeClass *g_type_check_class_cast (GTypeClass *g_class, GType is_a_type); gboolean g_type_check_class_is_a (GTypeClass *g_class, GType is_a_type);
GType g_boxed_type_register_static (const gchar *name, GBoxedCopyFunc boxed_copy, GBoxedFreeFunc boxed_free);
gpointer g_object_new (GType object_type, const gchar *first_property_name, ...); gpointer g_object_ref (gpointer object); void g_object_unref (gpointer object);
void g_object_set (gpointer object, const gchar *first_property_name, ...); void g_object_get (gpointer object, const gchar *first_property_name, ...);
#define g_clear_object(object_ptr) g_clear_pointer ((object_ptr), g_object_unref)
#define G_TYPE_CHECK_INSTANCE_CAST(instance, g_type, c_type) ((c_type*) g_type_check_instance_cast ((GTypeInstance*) (instance), (g_type)))
#define G_TYPE_CHECK_CLASS_CAST(g_class, g_type, c_type) ((c_type*) g_type_check_class_cast ((GTypeClass*) (g_class), (g_type)))
#define G_TYPE_CHECK_INSTANCE_TYPE(instance, g_type) (g_type_check_instance_is_a ((GTypeInstance*) (instance), (g_type)))
#define G_TYPE_CHECK_CLASS_TYPE(g_class, g_type) (g_type_check_class_is_a ((GTypeClass*) (g_class), (g_type)))
#define G_TYPE_INSTANCE_GET_CLASS(instance, g_type, c_type) ((c_type*) (((GTypeInstance*) (instance))->g_class))
#define G_OBJECT(object) (G_TYPE_CHECK_INSTANCE_CAST ((object), G_TYPE_OBJECT, GObject))
#define G_OBJECT_CLASS(class) (G_TYPE_CHECK_CLASS_CAST ((class), G_TYPE_OBJECT, GObjectClass))
#define G_STRUCT_MEMBER_PRIV(o,off) ((gpointer) ((guint8*) (o) + (glong) (off)))
#define G_ADD_PRIVATE(TypeName) { TypeName##_private_offset = g_type_add_instance_private (g_define_type_id, sizeof (TypeName##Private)); }
#define G_DEFINE_TYPE_WITH_CODE(TN, t_n, T_P, _C_) \
static void t_n##_init (TN *self); static void t_n##_class_init (TN##Class *klass); \
static gpointer t_n##_parent_class = NULL; static gint TN##_private_offset; \
static void t_n##_class_intern_init (gpointer klass) { t_n##_parent_class = g_type_class_peek_parent (klass); \
  if (TN##_private_offset != 0) g_type_class_adjust_private_offset (klass, &TN##_private_offset); t_n##_class_init ((TN##Class*) klass); } \
G_GNUC_UNUSED static inline gpointer t_n##_get_instance_private (TN *self) { return (G_STRUCT_MEMBER_PRIV (self, TN##_private_offset)); } \
GType t_n##_get_type (void) { static gsize static_g_define_type_id = 0; \
  if (g_once_init_enter (&static_g_define_type_id)) { GType g_define_type_id = g_type_register_static_simple (T_P, #TN, sizeof (TN##Class), (GClassInitFunc)(void (*)(void)) t_n##_class_intern_init, sizeof (TN), (GInstanceInitFunc)(void (*)(void)) t_n##_init, 0); \
    { _C_; } g_once_init_leave (&static_g_define_type_id, g_define_type_id); } return static_g_define_type_id; }
#endif
