#include <glib.h>
gboolean g_irepository_dump (const char *arg, GError **error) { return 0; }
